"""C12 - keyed arrays are canonical: sorting orders them and codecs refuse unordered data.

Every member with a sort key of both shipped modules (transfer mosaics, NEM multisig modifications) and of
the mosaic-restriction state entries (compiled on the fly by the real generator) is exercised with key
multisets x permutations: sort(), serialize() and deserialize() of the real classes against the Lean
model (Codec.sort / encode / decode) and against an independent statement of the declared comparer.
"""
import itertools
import json
import os

from translate import cats

from . import c01, codec, genmod
from .common import REPO

DRIVER = 'c01'

RULE = (
	'for every keyed array found in the IR of both networks and of state/restriction_mosaic_entry.cats and state/namespace_history.cats (whose key is itself a list: the empty list, prefixes, equal heads): multisets of 2-5 (thorough: -7) keys drawn '
	'from a palette with equal keys, keys differing only in high bytes, 0 and maximal values, byte keys with shared prefixes; every permutation '
	'(sampled above 120); for each: sort() result, idempotence, order independence, serialize() of sorted/unsorted/duplicated arrays, deserialize() '
	'of byte strings with permuted or duplicated element chunks; plus sort() of every enclosing value that holds such an array one level down through a struct-typed member '
	'(NEM multisig transaction -> inner modification transaction). distinct = (array, key sequence); all non-trivial.')
TRUSTED_BASE = c01.TRUSTED_BASE + ['ripemd_keccak_256 transform: native Lean RIPEMD-160/Keccak in the driver, hashlib + sha3 stand-in in the oracle']
ASSUMPTIONS = ['state entries: mosaic restrictions and namespace history (the two with keyed arrays) are compiled by the real generator on every run; account_state.cats has a literal array count, which the IR does not express']


def keyed_arrays(net):
	result = []
	for type_name in net.order:
		typedef = net.types[type_name]
		if 'struct' != typedef['k'] or typedef['abstract']:
			continue
		for field in typedef['fields']:
			if 'array' == field['kind']['k'] and field['kind']['sortKey']:
				result.append((type_name, field))
	return result


def key_palette(rng, width):
	top = (1 << (8 * width)) - 1
	values = [0, 1, 2, 255, 256, 257, top, top - 1, 1 << (8 * width - 1), (1 << (8 * width - 8)), (1 << (8 * width - 8)) + 1]
	if 8 == width:
		# values whose Python hashes coincide (2^61 - 1 apart): equality of keys must not be decided by hash
		values += [5 + (1 << 61) - 1, 3 + 2 * ((1 << 61) - 1)]
	values += [rng.randrange(top + 1) for _ in range(4)]
	return [value for value in values if 0 <= value <= top]


class KeyedArrayCheck:
	def __init__(self, ctx, net, engine, type_name, field):
		self.ctx = ctx
		self.net = net
		self.engine = engine
		self.type_name = type_name
		self.field = field
		self.elem = field['kind']['elem']
		self.key = field['kind']['sortKey']
		self.gen = engine.gen

	def with_key(self, element, choice, rng):
		"""Returns a copy of the element whose sort key is the palette entry `choice`."""
		element = json.loads(json.dumps(element))
		members = dict((name, index) for index, (name, _) in enumerate(element['f']))
		slot = element['f'][members[self.key]]
		key_field = next(field for field in self.net.types[self.elem]['fields'] if field['name'] == self.key)
		kind = key_field['kind']

		def set_atom(type_name, holder, index):
			typedef = self.net.types[type_name]
			if 'int' == typedef['k']:
				palette = key_palette(rng, typedef['w'])
				holder[index] = str(palette[choice % len(palette)])
			elif 'bytes' == typedef['k']:
				prefix = bytes([choice % 3]) * (typedef['n'] // 2)
				tail = bytes([(choice * 37 + position) % 256 for position in range(typedef['n'] - len(prefix))])
				holder[index] = {'b': (prefix + tail).hex().upper()}
			elif 'enum' == typedef['k']:
				values = [value for _, value in typedef['members']]
				holder[index] = str(values[choice % len(values)])

		if 'ref' == kind['k'] and 'struct' == self.net.types[kind['ty']]['k']:
			inner = slot[1]
			comparer = self.net.types[inner['s']]['comparer']
			positions = dict((name, index) for index, (name, _) in enumerate(inner['f']))
			inner_fields = {field['name']: field for field in self.net.types[inner['s']]['fields']}
			for position, (name, _) in enumerate(comparer):
				part_choice = (choice // (3 ** position)) if position else choice % 3
				entry = inner['f'][positions[name]]
				set_atom(inner_fields[name]['kind']['ty'], entry, 1)
				if 0 == position:
					typedef = self.net.types[inner_fields[name]['kind']['ty']]
					if 'enum' == typedef['k']:
						values = [value for _, value in typedef['members']]
						entry[1] = str(values[part_choice % len(values)])
		elif 'ref' == kind['k']:
			set_atom(kind['ty'], slot, 1)
		elif 'int' == kind['k']:
			palette = key_palette(rng, kind['w'])
			slot[1] = str(palette[choice % len(palette)])
		elif 'array' == kind['k']:
			# a key that is itself a list (namespace paths): the empty list, prefixes of one another, equal heads
			shapes = [[], [0], [0, 0], [0, 1], [1], [1, 0], [2], [0, 0, 0], [3, 3], [1, 0, 0], [4], [0, 2]]
			items = []
			for part in shapes[choice % len(shapes)]:
				typedef = self.net.types[kind['elem']]
				if 'int' == typedef['k']:
					top = (1 << (8 * typedef['w'])) - 1
					atoms = [0, 1, top, 256, 1 << (8 * typedef['w'] - 8)]
					if 8 == typedef['w'] and choice % 2:
						atoms = [5, 5 + (1 << 61) - 1, 3, 3 + (1 << 61) - 1, 1]  # hash-colliding integers inside list keys
					items.append(str(atoms[part]))
				else:
					raise ValueError(f'list key with elements of kind {typedef["k"]}')
			slot[1] = items
		return element

	def copy_key(self, source, target):
		"""Gives `target` the key of `source` in place (for a key with a comparer: the compared members of the key object)."""
		key_attr = codec.fix_name(self.key)
		key_field = next(field for field in self.net.types[self.elem]['fields'] if field['name'] == self.key)
		kind = key_field['kind']
		if 'ref' == kind['k'] and 'struct' == self.net.types[kind['ty']]['k'] and self.net.types[kind['ty']]['comparer']:
			inner_source, inner_target = getattr(source, key_attr), getattr(target, key_attr)
			for name, _ in self.net.types[kind['ty']]['comparer']:
				attribute = codec.fix_name(name)
				setattr(inner_target, attribute, getattr(inner_source, attribute))
		else:
			setattr(target, key_attr, getattr(source, key_attr))

	def swap_keys(self, first, second):
		"""Swaps the key members of two entry objects in place (for a key with a comparer: the compared members of the key object)."""
		key_attr = codec.fix_name(self.key)
		key_field = next(field for field in self.net.types[self.elem]['fields'] if field['name'] == self.key)
		kind = key_field['kind']
		if 'ref' == kind['k'] and 'struct' == self.net.types[kind['ty']]['k'] and self.net.types[kind['ty']]['comparer']:
			inner_first, inner_second = getattr(first, key_attr), getattr(second, key_attr)
			for name, _ in self.net.types[kind['ty']]['comparer']:
				attribute = codec.fix_name(name)
				value_first, value_second = getattr(inner_first, attribute), getattr(inner_second, attribute)
				setattr(inner_first, attribute, value_second)
				setattr(inner_second, attribute, value_first)
		else:
			value_first, value_second = getattr(first, key_attr), getattr(second, key_attr)
			setattr(first, key_attr, value_second)
			setattr(second, key_attr, value_first)

	def run(self, multisets, max_length):
		# pylint: disable=too-many-locals,too-many-branches,too-many-statements
		ctx, net, rng = self.ctx, self.net, self.ctx.rng
		base = self.gen.struct_value(self.type_name, 0)
		position = next(index for index, (name, _) in enumerate(base['f']) if name == self.field['name'])
		label = f'{net.name}.{self.type_name}.{self.field["name"]}'
		lines = []
		records = []
		for _ in range(multisets):
			length = rng.randrange(2, max_length + 1)
			choices = [rng.randrange(12) for _ in range(length)]
			if rng.random() < 0.4:
				choices[rng.randrange(length)] = choices[rng.randrange(length)]  # equal keys
			template = self.gen.value(self.elem, 1)
			elements = [self.with_key(template, choice, rng) for choice in choices]
			# make elements with equal keys otherwise distinguishable where the element has other members
			keys = [self.gen.sort_key(self.elem, self.key, element) for element in elements]
			distinct = len(set(keys)) == len(keys)
			orders = list(itertools.permutations(range(length)))
			if len(orders) > 120:
				orders = [tuple(range(length)), tuple(reversed(range(length)))] + rng.sample(orders, 60)
			expected_keys = sorted(keys)
			sorted_results = set()
			sorted_order = tuple(sorted(range(length), key=lambda index: keys[index]))
			for order in orders:
				value = json.loads(json.dumps(base))
				value['f'][position][1] = [elements[index] for index in order]
				ident = {'network': net.name, 'type': self.type_name, 'member': self.field['name'], 'keys': [repr(keys[index]) for index in order], 'value': value}
				ctx.case((label, tuple(repr(keys[index]) for index in order)), ident if not records and order == orders[0] else None)
				in_order = all(keys[order[index]] < keys[order[index + 1]] for index in range(length - 1))
				ctx.count('orders:' + ('ascending' if in_order else 'not-ascending'))
				obj = net.to_obj(self.type_name, value)

				# sort()
				obj.sort()
				result = net.to_wire(self.type_name, obj)
				result_elements = result['f'][position][1]
				result_keys = [self.gen.sort_key(self.elem, self.key, element) for element in result_elements]
				if result_keys != expected_keys:
					ctx.fail('property', f'{label}: sort() does not put the array in ascending key order', dict(ident, result_keys=[repr(key) for key in result_keys]))
				if sorted(map(codec.dumps, result_elements)) != sorted(map(codec.dumps, value['f'][position][1])):
					ctx.fail('property', f'{label}: sort() changed the set of entries', ident)
				obj.sort()
				if net.to_wire(self.type_name, obj) != result:
					ctx.fail('property', f'{label}: sort() is not idempotent', ident)
				sorted_results.add(codec.dumps(result))

				# serialize()
				unsorted_obj = net.to_obj(self.type_name, value)
				try:
					data = bytes(unsorted_obj.serialize())
					outcome = 'ok'
				except Exception as ex:  # pylint: disable=broad-except
					data = None
					outcome = f'err {type(ex).__name__}'
				if in_order and 'ok' != outcome:
					ctx.fail('property', f'{label}: a strictly ascending array is refused by serialize() ({outcome})', ident)
				if not in_order and 'ok' == outcome:
					ctx.fail('property', f'{label}: serialize() accepts an out-of-order or duplicate-key array', ident)
				text = codec.dumps(value)
				lines += [f'sort {net.name} {self.type_name} {text}', f'enc {net.name} {self.type_name} {text}']
				records.append(('sort', codec.dumps(result), ident))
				records.append(('enc', f'ok {data.hex().upper()}' if data is not None else 'err', ident))

			# history on one object: keys are evaluated (sort), two entries are then re-keyed IN PLACE (their key members swapped,
			# the entry objects stay the same), and the array is serialized / sorted again - nothing remembered from the first
			# evaluation may survive the edit
			if distinct and length >= 2:
				value = json.loads(json.dumps(base))
				value['f'][position][1] = [elements[index] for index in sorted_order]
				obj = net.to_obj(self.type_name, value)
				obj.sort()
				bytes(obj.serialize())
				entries = getattr(obj, codec.fix_name(self.field['name']))
				first, second = entries[0], entries[-1]
				self.swap_keys(first, second)
				ident = {'network': net.name, 'type': self.type_name, 'member': self.field['name'], 'history': 'sort, serialize, swap the keys of the first and last entry in place'}
				ctx.count('history:rekey-in-place')
				try:
					bytes(obj.serialize())
					ctx.fail('property', f'{label}: serialize() accepts an array that went out of order by an in-place edit of its entries', ident)
				except Exception:  # pylint: disable=broad-except
					pass
				obj.sort()
				after = net.to_wire(self.type_name, obj)['f'][position][1]
				after_keys = [self.gen.sort_key(self.elem, self.key, element) for element in after]
				if after_keys != sorted(after_keys):
					ctx.fail('property', f'{label}: sort() after an in-place edit of the entries leaves the array out of order', dict(ident, keys=[repr(key) for key in after_keys]))
				try:
					bytes(obj.serialize())
				except Exception as ex:  # pylint: disable=broad-except
					ctx.fail('property', f'{label}: serialize() refuses the array sorted after an in-place edit ({type(ex).__name__})', ident)

			if distinct and 1 != len(sorted_results):
				ctx.fail('property', f'{label}: sort() result depends on the initial order', {'network': net.name, 'type': self.type_name, 'keys': [repr(key) for key in keys]})

			# deserialize(): permute / duplicate element chunks inside a valid encoding
			if distinct:
				value = json.loads(json.dumps(base))
				value['f'][position][1] = [elements[index] for index in sorted_order]
				try:
					data = bytes(net.to_obj(self.type_name, value).serialize())
				except Exception:  # pylint: disable=broad-except
					ctx.fail('property', f'{label}: an array ascending under the declared comparer is refused by serialize()', {
						'network': net.name, 'type': self.type_name, 'member': self.field['name'], 'value': value})
					continue
				chunks = [bytes(net.to_obj(self.elem, elements[index]).serialize()) for index in sorted_order]
				region = b''.join(chunks)
				start = data.find(region)
				if start < 0 or data.find(region, start + 1) >= 0:
					ctx.count('decode:region-ambiguous')
					continue
				variants = []
				for order in rng.sample(list(itertools.permutations(range(length))), min(6, len(orders))):
					variants.append((b''.join(chunks[index] for index in order), list(order) == sorted(order), 'permuted'))
				duplicated = list(range(length))
				duplicated[rng.randrange(1, length)] = duplicated[0]
				variants.append((b''.join(chunks[index] for index in sorted(duplicated)), False, 'duplicated'))
				# entries of different sizes (list keys): a rearrangement may change the length of the region; that still is a
				# candidate encoding when nothing in the struct measures bytes (only the element count is written)
				measures_bytes = any(other['kind']['k'] in ('sizeF', 'sizeRef', 'sizeOf', 'byteSize') for other in net.types[self.type_name]['fields']) \
					or 'sized' == self.field['kind']['mode']['m']
				equal_pairs = [(first, second) for first in range(length) for second in range(length) if first != second]
				for first, second in rng.sample(equal_pairs, min(3, len(equal_pairs))):
					# every entry replaced by a copy of one of them: all keys equal (also when that key is the smallest / empty one)
					variants.append((b''.join(chunks[first] for _ in range(length)), False, 'all-equal'))
					variants.append((b''.join(chunks[first] if index == second else chunks[index] for index in range(length)), False, 'one-duplicated'))
				for region_bytes, acceptable, kind in variants:
					if len(region_bytes) != len(region) and measures_bytes:
						continue
					if 'one-duplicated' == kind and region_bytes == region:
						continue
					mutated = data[:start] + region_bytes + data[start + len(region):]
					status, decoded, _ = self.engine.impl_decode(self.type_name, mutated)
					ident = {'network': net.name, 'type': self.type_name, 'member': self.field['name'], 'bytes': mutated.hex().upper(), 'mutation': kind}
					ctx.case((label, 'decode', mutated), None)
					ctx.count(f'decode:{kind}:{"acceptable" if acceptable else "unacceptable"}')
					if acceptable and 'ok' != status:
						ctx.fail('property', f'{label}: deserialize() refuses a canonical encoding', ident)
					if not acceptable and 'ok' == status:
						ctx.fail('property', f'{label}: deserialize() accepts bytes whose keyed array is {kind} out of order', ident)
					lines.append(f'dec {net.name} {self.type_name} {mutated.hex().upper()}')
					records.append(('dec', 'ok ' + codec.dumps(decoded) if 'ok' == status else 'err', ident))

		answers = self.engine.ask_many(lines)
		for (operation, expected, ident), answer in zip(records, answers):
			if answer is None:
				continue
			if 'sort' == operation:
				agrees = answer.startswith('ok ') and json.loads(answer[3:]) == json.loads(expected)
			elif 'enc' == operation:
				agrees = answer == expected if expected.startswith('ok') else answer.startswith('err')
			else:
				agrees = (answer.startswith('ok ') and expected.startswith('ok ') and json.loads(answer[3:]) == json.loads(expected[3:])) or (
					answer.startswith('err') and expected.startswith('err'))
			if not agrees:
				ctx.fail('corr', f'{label}: model and implementation differ on {operation}', dict(ident, model=answer[:300], implementation=expected[:300]))


def containers_of(net, type_name):
	"""(container type, member) pairs: concrete structs with a struct-typed member that can hold a value of `type_name`
	(the member's type is `type_name` itself or the abstract struct it derives from)."""
	base = net.types[type_name].get('base')
	result = []
	for container in net.order:
		typedef = net.types[container]
		if 'struct' != typedef['k'] or typedef['abstract']:
			continue
		for field in typedef['fields']:
			if 'ref' == field['kind']['k'] and field['kind']['ty'] in (type_name, base) and field['cond'] is None:
				result.append((container, field))
	return result


def nested_sort(ctx, net, engine, type_name, field, rounds):
	"""sort() of a value that holds the keyed array one level down (NEM multisig transaction -> inner modification transaction):
	the array must come out ascending there too, as the model's sort (which recurses through struct-typed members) says."""
	rng = ctx.rng
	check = KeyedArrayCheck(ctx, net, engine, type_name, field)
	lines, records = [], []
	for container, member in containers_of(net, type_name):
		label = f'{net.name}.{container}.{member["name"]} -> {type_name}.{field["name"]}'
		for _ in range(rounds):
			outer = engine.gen.struct_value(container, 0)
			inner = engine.gen.struct_value(type_name, 1)
			length = rng.randrange(2, 5)
			template = engine.gen.value(check.elem, 2)
			elements = [check.with_key(template, choice, rng) for choice in rng.sample(range(12), length)]
			keys = [engine.gen.sort_key(check.elem, check.key, element) for element in elements]
			if len(set(keys)) != len(keys):
				continue
			order = list(range(length))
			while order == sorted(order, key=lambda index: keys[index]):
				rng.shuffle(order)
			inner_position = next(index for index, (name, _) in enumerate(inner['f']) if name == field['name'])
			inner['f'][inner_position][1] = [elements[index] for index in order]
			outer_position = next(index for index, (name, _) in enumerate(outer['f']) if name == member['name'])
			outer['f'][outer_position][1] = inner
			ident = {'network': net.name, 'type': container, 'member': member['name'], 'inner_type': type_name, 'keys': [repr(keys[index]) for index in order], 'value': outer}
			ctx.case((label, tuple(repr(keys[index]) for index in order)), ident if not records else None)
			ctx.count(f'nested-sort:{net.name}.{container}')
			try:
				obj = net.to_obj(container, outer)
			except Exception as ex:  # pylint: disable=broad-except
				ctx.notes.append(f'{label}: container value not constructible ({type(ex).__name__}: {ex})')
				break
			obj.sort()
			result = net.to_wire(container, obj)
			result_inner = result['f'][outer_position][1]
			result_keys = [engine.gen.sort_key(check.elem, check.key, element) for element in result_inner['f'][inner_position][1]]
			if result_keys != sorted(keys):
				ctx.fail('property', f'{label}: sort() of the enclosing value leaves the keyed array out of order', dict(ident, result_keys=[repr(key) for key in result_keys]))
			else:
				try:
					bytes(obj.serialize())
				except Exception as ex:  # pylint: disable=broad-except
					ctx.fail('property', f'{label}: the sorted enclosing value is refused by serialize() ({type(ex).__name__}: {ex})', ident)
			lines.append(f'sort {net.name} {container} {codec.dumps(outer)}')
			records.append((codec.dumps(result), ident, label))
	answers = engine.ask_many(lines)
	for (expected, ident, label), answer in zip(records, answers):
		if answer is not None and not (answer.startswith('ok ') and json.loads(answer[3:]) == json.loads(expected)):
			ctx.fail('corr', f'{label}: model and implementation differ on sort of the enclosing value', dict(ident, model=answer[:300], implementation=expected[:300]))


STATE_ROOTS = ['restriction_mosaic_entry.cats', 'namespace_history.cats']


def state_networks(ctx):
	"""State entries with keyed arrays (mosaic restrictions, namespace history), compiled by the real generator."""
	base = os.path.join(REPO, 'catbuffer', 'schemas', 'symbol')
	result = []
	for number, file_name in enumerate(STATE_ROOTS):
		root = os.path.join(base, 'state', file_name)
		package = genmod.ScratchPackage(ctx.tmpdir(), f'scratch_c12_{os.getpid()}_{len(os.listdir(ctx.tmpdir()))}_{number}')
		label = 'state' if 0 == number else 'state_' + file_name.split('.')[0]
		module, proc = package.generate(label, root, base)
		if module is None:
			ctx.notes.append(f'state/{file_name} is not compiled by the generator: ' + proc.stderr[-200:])
			continue
		try:
			schema, _ = cats.load_schema(root, base)
		except cats.Unsupported as ex:
			ctx.notes.append(f'state/{file_name} outside the modelled dialect: {ex}')
			continue
		result.append(codec.Network(label, schema=schema, module=module))
	return result


def run(ctx):
	networks = []
	for name in ('symbol', 'nem'):
		networks.append(codec.Network(name))
	networks += state_networks(ctx)
	total = 0
	for net in networks:
		engine = c01.Engine(ctx, net, 'C12')
		for type_name, field in keyed_arrays(net):
			total += 1
			ctx.count(f'keyed-arrays:{net.name}')
			KeyedArrayCheck(ctx, net, engine, type_name, field).run(ctx.scale(15, 60), ctx.scale(5, 7))
			nested_sort(ctx, net, engine, type_name, field, ctx.scale(6, 30))
	if 0 == total:
		ctx.fail('corr', 'no keyed array found in the schemas', {})


def replay(ctx, payload):
	print(payload['what'])
	run(ctx)


MANIFEST = {
	'level_text': (
		'Theorems for every schema, element type, key member and comparer transform (Properties/C12.lean): the sort-key order is a strict total order '
		'(numeric on ids, lexicographic on byte keys, tuple order for comparers); sort() yields a permutation in ascending key order, strictly ascending iff '
		'keys are distinct, idempotent, independent of the initial order; encoding an out-of-order or duplicate-key array fails; decoding such bytes fails with '
		'`unsorted`, decoding ordered bytes returns the array; two acceptable arrays with the same entries are equal (canonical_unique). Tied to ArrayHelpers/the '
		'generated sort() by a differential run over key multisets x permutations on every keyed array of both modules and of the mosaic-restriction state entries.'
	),
	'level_note': (
		'Trusted: Lean kernel + standard axioms; interpreter tied by differential execution; the ripemd_keccak_256 transform is a parameter of the theorems; '
		'state entries whose schemas the Python generator cannot compile are covered by the theorems only.'
	),
	'technique': 'Lean 4 theorems about the sort-key order, stable sort and the array readers/writers + differential correspondence on key multisets x permutations',
}

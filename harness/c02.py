"""C02 - encoded bytes are exactly the layout the CATS schema prescribes.

(1) The independent reader of the schema text (translate/cats.py -> IR) is cross-checked against
    catparser's own expanded descriptors, member by member (three-way tie: text, IR, catparser).
(2) The Lean interpreter of that IR and the generated codecs are compared byte for byte on every
    encode and every decode, with the first differing offset reported; to_json() is compared with the
    model's rendering.
"""
import contextlib
import io
import os
import sys
import types

from . import c01, codec
from .common import REPO

DRIVER = 'c01'

RULE = c01.RULE + (
	' Additionally every struct of both schema sets is compared member by member between translate/cats.py and catparser '
	'(kind, width, signedness, reserved value, array element/size/kind/sort key/alignment/padding, condition, sizeof/sizeref target).')
TRUSTED_BASE = c01.TRUSTED_BASE
ASSUMPTIONS = c01.ASSUMPTIONS + ['to_json() and str() renderings are modelled (Codec/Render.lean) and compared on every generated value; there is no theorem about the renderings']


def catparser_models(network):
	sys.modules.setdefault('yaml', types.SimpleNamespace(SafeDumper=object, dump=lambda *args, **kwargs: None))
	from catparser.__main__ import LarkMultiFileParser
	from catparser.AstPostProcessor import AstPostProcessor
	base = os.path.join(REPO, 'catbuffer', 'schemas', network)
	parser = LarkMultiFileParser()
	parser.set_include_path(base)
	with contextlib.redirect_stdout(io.StringIO()):
		raw = parser.parse(os.path.join(base, 'all_generated.cats'))
	processor = AstPostProcessor(raw)
	processor.apply_attributes()
	processor.expand_named_inlines()
	processor.expand_unnamed_inlines()
	return [model.to_legacy_descriptor() for model in processor.type_descriptors]


def signature_from_descriptor(member):
	condition = None
	if 'condition' in member:
		condition = (member['condition'], member['condition_operation'], member['condition_value'])
	disposition = member.get('disposition')
	if 'reserved' == disposition:
		return ('reserved', member['size'], member['signedness'], member['value'], condition)
	if 'sizeof' == disposition:
		return ('sizeof', member['size'], member['signedness'], member['value'], condition)
	if disposition and disposition.startswith('array'):
		element = member['type'] if 'byte' != member['type'] else ('byte', member['element_disposition']['size'])
		return ('array', element, disposition, member['size'], member.get('sort_key'), member.get('alignment'), member.get('is_last_element_padded'), condition)
	if 'byte' == member['type']:
		sizeref = member.get('sizeref')
		return ('int', member['size'], member['signedness'], (sizeref['property_name'], sizeref['delta']) if sizeref else None, condition)
	return ('ref', member['type'], condition)


def signature_from_ir(field, enums_by_value):
	kind = field['kind']
	tag = kind['k']
	signedness = lambda: 'signed' if kind.get('signed') else 'unsigned'  # noqa: E731 pylint: disable=unnecessary-lambda-assignment
	condition = None
	if field['cond']:
		cond = field['cond']
		condition = (cond['field'], {'eq': 'equals', 'ne': 'not equals', 'isIn': 'in', 'notIn': 'not in'}[cond['op']], enums_by_value(cond))
	if 'reserved' == tag:
		return ('reserved', kind['w'], signedness(), kind['value'], condition)
	if 'sizeOf' == tag:
		return ('sizeof', kind['w'], signedness(), kind['target'], condition)
	if 'barray' == tag:
		return ('array', ('byte', 1), 'array', kind['sizeField'], None, None, None, condition)
	if 'array' == tag:
		mode = kind['mode']
		disposition = {'count': 'array', 'sized': 'array sized', 'fill': 'array fill'}[mode['m']]
		size = 0 if 'fill' == mode['m'] else mode['field']
		return ('array', kind['elem'], disposition, size, kind['sortKey'], kind['align'] or None, kind['padLast'] if kind['align'] else None, condition)
	if 'sizeRef' == tag:
		return ('int', kind['w'], signedness(), (kind['target'], kind['delta']), condition)
	if 'sizeF' == tag:
		return ('int', kind['w'], 'unsigned', None, condition)
	if tag in ('int', 'count', 'byteSize'):
		return ('int', kind['w'], signedness(), None, condition)
	return ('ref', kind['ty'], condition)


def cross_check_translator(ctx, net):
	descriptors = {descriptor['name']: descriptor for descriptor in catparser_models(net.name)}
	if sorted(descriptors) != sorted(net.order):
		ctx.fail('corr', f'{net.name}: translate/cats.py and catparser disagree on the set of types', {
			'only_catparser': sorted(set(descriptors) - set(net.order)), 'only_translator': sorted(set(net.order) - set(descriptors))})
	for name in net.order:
		typedef = net.types[name]
		descriptor = descriptors.get(name)
		if descriptor is None:
			continue
		ctx.case(('translator', net.name, name), None)
		ctx.count('translator-cross-checks')
		if 'struct' != typedef['k']:
			expected = None
			if 'int' == typedef['k']:
				expected = {'size': typedef['w'], 'signedness': 'signed' if typedef['signed'] else 'unsigned', 'type': 'byte'}
			elif 'bytes' == typedef['k']:
				expected = {'size': typedef['n'], 'signedness': 'unsigned', 'type': 'byte'}
			else:
				expected = {
					'size': typedef['w'], 'signedness': 'signed' if typedef['signed'] else 'unsigned', 'type': 'enum',
					'values': [{'name': member, 'value': value} for member, value in typedef['members']]}
				if typedef['bitwise']:
					expected['is_bitwise'] = True
			actual = {key: value for key, value in descriptor.items() if key not in ('name', 'comments')}
			if 'values' in actual:
				actual['values'] = [{'name': value['name'], 'value': value['value']} for value in actual['values']]
			if actual != expected:
				ctx.fail('corr', f'{net.name}.{name}: translator and catparser disagree', {'translator': expected, 'catparser': actual})
			continue

		def cond_value(cond, typedef=typedef):
			cond_field = next(field for field in typedef['fields'] if field['name'] == cond['field'])
			kind = cond_field['kind']
			if 'ref' == kind['k'] and 'enum' == net.types[kind['ty']]['k']:
				return next(member for member, value in net.types[kind['ty']]['members'] if value == cond['value'])
			return cond['value']

		ours = [(field['name'], signature_from_ir(field, cond_value)) for field in typedef['fields']]
		theirs = [(member['name'], signature_from_descriptor(member)) for member in descriptor['layout'] if 'const' != member.get('disposition')]
		if ours != theirs:
			differing = next((pair for pair in zip(ours, theirs) if pair[0] != pair[1]), (ours[len(theirs):len(theirs) + 1], theirs[len(ours):len(ours) + 1]))
			ctx.fail('corr', f'{net.name}.{name}: translator and catparser disagree on the expanded layout', {'translator': differing[0], 'catparser': differing[1]})
		if (descriptor.get('factory_type') if not typedef['abstract'] else None) != typedef['base']:
			ctx.fail('corr', f'{net.name}.{name}: factory type differs', {'translator': typedef['base'], 'catparser': descriptor.get('factory_type')})
		if ('abstract' == descriptor.get('disposition')) != typedef['abstract']:
			ctx.fail('corr', f'{net.name}.{name}: abstractness differs', {})


def run(ctx):
	for name in ('symbol', 'nem'):
		try:
			net = codec.Network(name)
		except Exception as ex:  # pylint: disable=broad-except
			ctx.fail('corr', f'the {name} schema cannot be read by translate/cats.py: {ex}', {'network': name})
			continue
		cross_check_translator(ctx, net)
	c01.run(ctx, focus='C02')


def replay(ctx, payload):
	c01.replay(ctx, payload)


MANIFEST = {
	'level_text': (
		"Layout theorems for every schema, struct and object (Properties/C02.lean): the encoding is the concatenation of the members' bytes in declared "
		"(expanded) order; integer members have their declared width, little-endian, two's complement, and out-of-range values are refused; count, byte-size, "
		'sizeof, size-prefix and sizeref members carry the quantity they measure; reserved members are written at, and only accepted at, their constants; '
		'aligned elements start at multiples of the alignment with minimal zero padding (last element per pad_last); conditional members contribute bytes '
		'exactly when their condition holds. The IR the theorems speak about is re-read from the schema TEXT on every run by an independent reader that is '
		'cross-checked member by member against catparser; the interpreter and the codecs are compared byte for byte (first differing offset reported) and '
		"to_json() and str() renderings are compared with the model's on every value."
	),
	'level_note': (
		'Trusted: Lean kernel + standard axioms; hand-written interpreter tied by differential execution; translate/cats.py; the JSON and text renderings are tied '
		'by execution only (no theorem about the renderings).'
	),
	'technique': 'Lean 4 layout theorems over a schema-indexed codec interpreter + byte-for-byte differential with the generated Python codecs',
}
